"""C17  Simulation is invariant to time-origin shifts and equivalent schedule forms.

  shift.field / shift.recovery   only differences of times enter the time step and the flux quadrature
  schedule.constant              simulate(t, full(len(t), p_f)) and simulate(t) have identical row 0 and step body
  schedule.length                len(schedule) != len(time)  <=>  ValueError, before any state is written
  before_simulate                RuntimeError from recovery_factor() / recovery_factor_interpolator() on a fresh object
  interp.nodes_and_fill          interpolator == recovery at the simulated times, 0 before the first, last value after
Shift invariance *at rounding level* on real floats: BOUNDED run-time contract.
"""
from __future__ import annotations

from .. import backends as be
from .. import term as tm
from ..libmodels import Interp1dV
from . import c10, resv
from .common import *  # noqa: F403

LEVEL = "proof"
EXPLANATION = "the recurrence of the time loop and the recovery quadrature are extracted symbolically; shift invariance is the syntactic/SMT fact that times occur only in differences; the schedule clauses are path-condition obligations; the interpolator clauses follow from the interp1d model"
TRUSTED = ["loop recurrence summarisation", "scipy cumulative_trapezoid / interp1d models"]
ASSUMPTIONS = ["rounding-level agreement of shifted runs on real floats is a bounded clause"]

nt, nx = resv.nt, resv.nx
j, k = tm.var("j", tm.I), tm.var("k", tm.I)
s = tm.var("s")
CLASSES = ("IdealReservoir", "SinglePhaseReservoir")


def rt_replay(w):
    import types
    r0 = resv.int_grid_replay(w)
    if r0.get("reproduced"):
        return r0
    from ..rt import c17 as rt
    r_ = rt.run(types.SimpleNamespace(tier="quick", seed=0))
    if r_["violations"]:
        v = r_["violations"][0]
        return {"reproduced": True, "input": v.get("input"), "observed": v.get("observed"), "required": v.get("required"), "clause": v.get("clause")}
    return {"reproduced": False}


def shift_terms(t):
    """t with every time t(q) replaced by t(q) + s"""
    sub = {}
    for nd in tm.postorder(t):
        if nd.op == "app" and nd.args[0] == "t":
            sub[nd] = tm.add(nd, s)
    return tm.subst(t, sub)


def build(ctx):
    obs = []

    def shift_field():
        last = None
        for cls in CLASSES:
            for sch in (("none",) if cls == "IdealReservoir" else ("none", "array")):
                S = resv.Step(ctx, cls, sch)
                s_, b_ = S.single()
                for name, t in (("row 0", S.pre((tm.const(0), j))), ("kt_h2", b_["arg_fn"]((j,))), ("right-hand side", s_["b"]((j,)))):
                    sh = shift_terms(t)
                    if sh is t:
                        continue
                    v = be.prove_smt(tm.eq(sh, t), resv.alpha_facts(S, [t, sh]) if cls != "IdealReservoir" else [], want={"s": s})
                    if v.status != be.PROVED:
                        v.detail = f"{cls}: {name} of the time step changes when all times are shifted by s: " + v.detail
                        return with_models(v, S.o)
                last = S.o
        return with_models(be.Verdict(be.PROVED, "SMT", detail="row 0, kt_h2 and the right-hand side are unchanged under t -> t + s"), last)

    obs.append(Obligation("shift.field", "shifting every time by a constant leaves row 0 and the whole time step (mesh numbers, right-hand side) unchanged: only differences of times enter", shift_field, [resv.ISIM, resv.SSIM], "SMT", rt_replay))

    def shift_recovery():
        last = None
        for cls in CLASSES:
            holder = {}

            def mk(cls=cls):
                return [c10_state(ctx, cls)], {}
            outs = ctx.engine.run_paths(ctx.engine.func(resv.RF), mk, pc=[tm.ge(nt, tm.const(2)), tm.ge(nx, tm.const(3))])
            o = outs[0]
            reg = o.heap["ghost"].get("cumtrapz", {})
            if len(reg) != 1:
                return be.Verdict(be.REFUTED, "SMT", witness={}, detail="flux recovery is not a cumulative trapezoid")
            q = list(reg.values())[0]
            inc = q["inc"](k)
            v = be.prove_smt(tm.eq(shift_terms(inc), inc), [], want={"s": s})
            if v.status != be.PROVED:
                return with_models(v, o)
            if shift_terms(q["y"]((k,))) is not q["y"]((k,)):
                return be.Verdict(be.REFUTED, "SMT", witness={}, detail="the flux itself depends on absolute time")
            last = o
        return with_models(v, last)

    obs.append(Obligation("shift.recovery", "recovery_factor(): the quadrature increments are unchanged when all times are shifted (in-place recovery does not use the times at all)", shift_recovery, [resv.RF], "SMT", rt_replay))

    def constant():
        v = constant1()
        if v.status != be.PROVED:
            return v
        with resv.int_time():  # whole-day time stamps: the scalar setting must not be cast to the grid's integer type
            v2 = constant1()
        if v2.status != be.PROVED:
            v2.detail = "[integer-typed time grid] " + v2.detail
            if v2.witness is not None:
                v2.witness["time_dtype"] = "int64"
            return v2
        return v

    def constant1():
        A = resv.Step(ctx, "SinglePhaseReservoir", "array")
        B = resv.Step(ctx, "SinglePhaseReservoir", "none")
        (As, Ab), (Bs, Bb) = A.single(), B.single()   # OutOfSubset unless one solve and one matrix assembly per step
        sub = {}
        for t in (A.pre((tm.const(0), j)), As["b"]((j,)), Ab["arg_fn"]((j,))):
            for nd in tm.postorder(t):
                if nd.op == "app" and nd.args[0] == "pf_sched":
                    sub[nd] = resv.pf
        ren = {}
        pairs = [(A.pre((tm.const(0), j)), B.pre((tm.const(0), j)), "row 0"), (Ab["arg_fn"]((j,)), Bb["arg_fn"]((j,)), "kt_h2"), (As["b"]((j,)), Bs["b"]((j,)), "right-hand side")]
        # the two runs build two fluid objects with independently numbered interpolants: identify them by role
        ren = {A.A.name: B.A.name, A.M.name: B.M.name, A.PPname: B.PPname}
        extra = {}
        for nm, I in A.o.heap["ghost"].get("interps", {}).items():
            pass

        def rename(t):
            memo = {}
            for nd in tm.postorder(t):
                kids = tm.children(nd)
                nk = tuple(memo[c] for c in kids)
                if nd.op == "app" and nd.args[0] in ren:
                    memo[nd] = tm.app(ren[nd.args[0]], nk, nd.sort)
                elif nd.op == "app" and nd.args[0].startswith(("min", "max")) and not kids:
                    memo[nd] = nd
                else:
                    memo[nd] = nd if all(a is b for a, b in zip(nk, kids)) else tm.rebuild(nd, nk)
            return memo[t]

        for a, b_, name in pairs:
            a2 = rename(tm.subst(a, sub))
            if a2 is not b_:
                v = be.prove_smt(tm.eq(a2, b_), [], want={"j": j})
                if v.status != be.PROVED:
                    v.detail = f"{name} differs between simulate(t, full(len(t), p_f)) and simulate(t): " + v.detail
                    return with_models(v, A.o, B.o)
        return with_models(be.Verdict(be.PROVED, "SMT", detail="identical row 0, mesh numbers and right-hand side after substituting the constant schedule"), A.o, B.o)

    obs.append(Obligation("schedule.constant", "SinglePhaseReservoir: a schedule that is constant in time gives exactly the time step (and row 0) of the scalar setting", constant, [resv.SSIM], "SMT", rt_replay))

    def length():
        Ls = tm.var("Ls", tm.I)
        outs, h = resv.run_simulate(ctx, "SinglePhaseReservoir", "array", c10.old_state(True), sched_len=Ls)
        goals = []
        for o in outs:
            pc = tm.land(*o.pc)
            r = o.heap["args"][0]
            if o.kind == "return":
                goals.append(tm.implies(pc, tm.eq(Ls, nt)))
            elif o.value == "ValueError":
                if r.writes:
                    return be.Verdict(be.REFUTED, "FRAME", witness={}, detail=f"state written before the rejection: {sorted({a for _, a in r.writes})}")
            else:
                return be.Verdict(be.REFUTED, "SMT", witness={}, detail=f"raises {o.value}")
        # every schedule of another length is rejected: no returning path is compatible with Ls != nt
        if not any(o.kind == "raise" for o in outs):
            return be.Verdict(be.REFUTED, "SMT", witness={}, detail="no rejecting path")
        return with_models(be.prove_smt(tm.land(*goals), [], want={"len_schedule": Ls, "len_time": nt}), *outs)

    obs.append(Obligation("schedule.length", "SinglePhaseReservoir.simulate returns only if len(schedule) == len(time); otherwise ValueError, raised before any attribute is written", length, [resv.SSIM], "SMT", rt_replay))

    def ideal_length():
        # both reservoir classes: IdealReservoir.simulate takes no schedule, so a call with one (of any length, positional or
        # by keyword) must not return; in particular a schedule whose length differs from the time grid is rejected
        f = ctx.engine.func(resv.ISIM)
        Ls = tm.var("Ls", tm.I)
        for how in ("positional", "keyword"):
            def mk(how=how):
                r = resv.make_reservoir(ctx, "IdealReservoir", None, c10.old_state(True)())
                sch = resv.sched_arr(Ls)
                return ([r, resv.time_arr(), sch], {}) if how == "positional" else ([r, resv.time_arr()], {"pressure_fracface": sch})
            outs = [o for o in ctx.engine.run_paths(f, mk, pc=[tm.ge(resv.nt, tm.const(2)), tm.ge(resv.nx, tm.const(3)), tm.ge(Ls, tm.const(0)), tm.ne(Ls, resv.nt)]) if o.kind != "infeasible"]
            for o in outs:
                if o.kind == "return":
                    return be.Verdict(be.REFUTED, "STRUCT", witness={"len_schedule": "!= len(time)", "passed": how}, detail=f"IdealReservoir.simulate(time, schedule) returns although len(schedule) != len(time) (schedule passed {how}): a schedule of the wrong length is accepted and ignored")
                if o.heap["args"][0].writes:
                    return be.Verdict(be.REFUTED, "FRAME", witness={}, detail="state written before the rejection")
        return be.Verdict(be.PROVED, "STRUCT", detail="every path raises (the method has no schedule parameter), nothing written")

    def ideal_length_replay(w):
        import numpy as np
        Ir = real(resv.RES + "IdealReservoir")
        t_ = np.linspace(0, 1, 30) ** 2
        for m_ in (29, 31, 3, 60):
            for kw in (False, True):
                r = Ir(20, 1000.0, 8000.0, None)
                try:
                    r.simulate(t_, pressure_fracface=np.full(m_, 1000.0)) if kw else r.simulate(t_, np.full(m_, 1000.0))
                except Exception:  # noqa: BLE001
                    continue
                return {"reproduced": True, "input": {"class": "IdealReservoir", "len(time)": 30, "len(schedule)": m_, "keyword": kw}, "observed": "returned normally", "required": "an error"}
        return {"reproduced": False}

    obs.append(Obligation("schedule.length.ideal", "IdealReservoir.simulate never returns when it is handed a schedule whose length differs from the time grid (clean code: it takes no schedule at all), and writes nothing", ideal_length, [resv.ISIM], "STRUCT", ideal_length_replay))

    c10obs = {o.id: o for o in c10.build(ctx)}
    src = c10obs["before_simulate"]
    obs.append(Obligation("before_simulate", src.statement, src.run, src.functions, src.backend, rt_replay))

    def interp_fill():
        # state part (x, y, fill values are those of the current state) plus the semantic part: F(t_k) = recovery[k] by the
        # interp1d node axiom, 0 before the first time, the final recovery after the last - for every strictly increasing
        # grid of any sign; the interp1d precondition (distinct abscissae) is an obligation
        return c10.interp_post_full(ctx)

    obs.append(Obligation("interp.nodes_and_fill", "recovery_factor_interpolator(): over (simulated times, recovery) hence equal to recovery at the simulated times (interp1d node values), fill values 0 before the first time and the final recovery after the last, no bounds error", interp_fill, [resv.RFI], "STRUCT", rt_replay))

    def canary():
        S = resv.Step(ctx, "IdealReservoir", "none")
        s_, b_ = S.single()
        t = b_["arg_fn"]((j,))
        sub = {tm.app("t", [tm.add(S.i, tm.const(1))]): tm.add(tm.app("t", [tm.add(S.i, tm.const(1))]), s)}
        return be.prove_smt(tm.eq(tm.subst(t, sub), t), [])

    obs.append(Obligation("canary.smt", "CANARY (must be refuted): the mesh number is unchanged when only the new time is shifted", canary, [resv.ISIM], "SMT", expect=be.REFUTED))
    tp = resv.twophase_delegates(ctx)
    tp.id = "dep." + tp.id
    obs.append(tp)
    return obs


def c10_state(ctx, cls):
    from ..symex import ArrV
    fluid, fo = resv.make_fluid(ctx)
    st = {"time": ArrV((nt,), lambda i: tm.app("t", i), "f8", name="t"), "pseudopressure": ArrV((nt, nx), lambda i: tm.app("PP", i), "f8", name="PP")}
    return resv.make_reservoir(ctx, cls, fluid, st)


def bounded(ctx):
    from ..rt import c17 as rt
    return rt.run(ctx)
